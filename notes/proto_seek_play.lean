/- Prototype: skip_ticks n ≡ play_tick^n over an abstract "fetch until timed or stopped" function. -/
structure S (C : Type) where
  core : C
  on : Nat
  off : Nat
  time : Nat
  enabled : Bool

variable {C : Type}

/-- `while(enabled && !on && !off) step_event()` as an abstract idempotent settling function -/
structure Settle (C : Type) where
  f : S C → S C
  settled : ∀ s, (f s).on > 0 ∨ (f s).off > 0 ∨ (f s).enabled = false
  fix : ∀ s, (s.on > 0 ∨ s.off > 0 ∨ s.enabled = false) → f s = s
  time : ∀ s, (f s).time = s.time   -- fetching takes no time

def playTick (st : Settle C) (s : S C) : S C :=
  let s1 := if s.on > 0 then { s with on := s.on - 1, time := s.time + 1 }
            else if s.off > 0 then { s with off := s.off - 1, time := s.time + 1 } else s
  st.f s1

/-- the body of skip_ticks after the `!is_enabled()` early exit, literal loop structure -/
def skipLoop (st : Settle C) (fuel : Nat) (ticks : Nat) (s : S C) : S C :=
  match fuel with
  | 0 => { s with time := s.time + ticks }
  | fuel + 1 =>
    if ticks = 0 ∨ s.enabled = false then { s with time := s.time + ticks }
    else if s.on > 0 then
      if s.on > ticks then { s with on := s.on - ticks, time := s.time + ticks }
      else skipLoop st fuel (ticks - s.on) (st.f { s with on := 0, time := s.time + s.on })
    else if s.off > 0 then
      if s.off > ticks then { s with off := s.off - ticks, time := s.time + ticks }
      else skipLoop st fuel (ticks - s.off) (st.f { s with off := 0, time := s.time + s.off })
    else skipLoop st fuel ticks (st.f s)

def iter (f : α → α) : Nat → α → α
  | 0, a => a
  | n + 1, a => iter f n (f a)

theorem iter_add (f : α → α) (a b : Nat) (x : α) : iter f (a + b) x = iter f b (iter f a x) := by
  induction a generalizing x with
  | zero => simp [iter]
  | succ a ih => rw [Nat.succ_add]; simp [iter, ih]

/-- n play ticks from a state with `on ≥ n` just count down -/
theorem play_on (st : Settle C) : ∀ (n : Nat) (s : S C), s.on > n →
    iter (playTick st) n s = { s with on := s.on - n, time := s.time + n }
  | 0, s, _ => by simp [iter]
  | n + 1, s, h => by
    have h1 : s.on > 0 := by omega
    have hs : playTick st s = { s with on := s.on - 1, time := s.time + 1 } := by
      unfold playTick; simp only [h1, if_true]
      apply st.fix; left; show s.on - 1 > 0; omega
    simp only [iter, hs]
    rw [play_on st n _ (by show s.on - 1 > n; omega)]
    congr 1 <;> simp <;> omega

theorem play_on_exact (st : Settle C) (s : S C) (h : s.on > 0) :
    iter (playTick st) s.on s = st.f { s with on := 0, time := s.time + s.on } := by
  have h1 := play_on st (s.on - 1) s (by omega)
  have : s.on = (s.on - 1) + 1 := by omega
  rw [this, iter_add, h1]
  simp only [iter, playTick]
  have h2 : s.on - (s.on - 1) = 1 := by omega
  simp [h2, Nat.add_assoc]

theorem play_off (st : Settle C) : ∀ (n : Nat) (s : S C), s.on = 0 → s.off > n →
    iter (playTick st) n s = { s with off := s.off - n, time := s.time + n }
  | 0, s, _, _ => by simp [iter]
  | n + 1, s, h0, h => by
    have h1 : s.off > 0 := by omega
    have hs : playTick st s = { s with off := s.off - 1, time := s.time + 1 } := by
      unfold playTick; simp only [h0, h1, if_true, Nat.lt_irrefl, if_false]
      apply st.fix; right; left; show s.off - 1 > 0; omega
    simp only [iter, hs]
    rw [play_off st n _ (by simpa using h0) (by show s.off - 1 > n; omega)]
    congr 1 <;> simp <;> omega

theorem play_off_exact (st : Settle C) (s : S C) (h0 : s.on = 0) (h : s.off > 0) :
    iter (playTick st) s.off s = st.f { s with off := 0, time := s.time + s.off } := by
  have h1 := play_off st (s.off - 1) s h0 (by omega)
  have : s.off = (s.off - 1) + 1 := by omega
  rw [this, iter_add, h1]
  simp only [iter, playTick]
  have h2 : s.off - (s.off - 1) = 1 := by omega
  simp [h2, h0, Nat.add_assoc]

def settledS (s : S C) : Prop := s.on > 0 ∨ s.off > 0 ∨ s.enabled = false

theorem skip_eq_play (st : Settle C) : ∀ (fuel ticks : Nat) (s : S C), fuel > ticks → settledS s →
    (∀ k, k < ticks → (iter (playTick st) k s).enabled = true) →
    skipLoop st fuel ticks s = iter (playTick st) ticks s
  | 0, ticks, s, hf, _, _ => by omega
  | fuel + 1, ticks, s, hf, hs, hen => by
    unfold skipLoop
    by_cases ht : ticks = 0
    · subst ht; simp [iter]
    · have hen0 : s.enabled = true := by simpa [iter] using hen 0 (by omega)
      have hc : ¬ (ticks = 0 ∨ s.enabled = false) := by simp [ht, hen0]
      simp only [hc, if_false]
      by_cases hon : s.on > 0
      · simp only [hon, if_true]
        by_cases hgt : s.on > ticks
        · simp only [hgt, if_true]; exact (play_on st ticks s hgt).symm
        · simp only [hgt, if_false]
          have hsplit : ticks = s.on + (ticks - s.on) := by omega
          rw [hsplit, iter_add, play_on_exact st s hon]
          have : s.on + (ticks - s.on) - s.on = ticks - s.on := by omega
          rw [this]
          apply skip_eq_play st fuel (ticks - s.on) _ (by omega) (st.settled _)
          intro k hk
          have := hen (s.on + k) (by omega)
          rwa [iter_add, play_on_exact st s hon] at this
      · simp only [hon, if_false]
        have hon0 : s.on = 0 := by omega
        by_cases hoff : s.off > 0
        · simp only [hoff, if_true]
          by_cases hgt : s.off > ticks
          · simp only [hgt, if_true]; exact (play_off st ticks s hon0 hgt).symm
          · simp only [hgt, if_false]
            have hsplit : ticks = s.off + (ticks - s.off) := by omega
            rw [hsplit, iter_add, play_off_exact st s hon0 hoff]
            have : s.off + (ticks - s.off) - s.off = ticks - s.off := by omega
            rw [this]
            apply skip_eq_play st fuel (ticks - s.off) _ (by omega) (st.settled _)
            intro k hk
            have := hen (s.off + k) (by omega)
            rwa [iter_add, play_off_exact st s hon0 hoff] at this
        · exfalso
          rcases hs with h | h | h
          · exact hon h
          · exact hoff h
          · simp [hen0] at h

#print axioms skip_eq_play
