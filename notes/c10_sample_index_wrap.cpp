// Replay of the uint16_t narrowing of add_sample's result in MDSDRV_Linker::add_song (repaired by fix 8769e2a).
// One MDS file: pcmd = "XY", pcmh #0 = X (slot 0), then n pcmh entries on Y that differ only in loop_end
// (slot 2; the last one slot 1).  With n = 65536 the wave bank holds 65537 headers; before the fix slot 1
// resolved to address 0 ('X'), after it to address 1 ('Y').  About 10 minutes at -O2 (std::find over the
// headers compares serialised headers), which is why this is not a harness case.
//   g++ -std=c++14 -O2 -I $REPO/src c10_sample_index_wrap.cpp $(ls $REPO/src/*.cpp $REPO/src/platform/*.cpp | grep -v 'mmlc.cpp\|mdslink.cpp') -o wrap && ./wrap 65536
#include "platform/mdsdrv.h"
#include "riff.h"
#include <cstdio>
#include <cstring>
#include <vector>
#include <cstdint>
static void p32(std::vector<uint8_t>& v, uint32_t x){ for(int i=0;i<4;i++) v.push_back((x>>(8*i))&255); }
static void s4(std::vector<uint8_t>& v, const char* s){ v.insert(v.end(), s, s+4); }
static std::vector<uint8_t> chunk(const char* t, const std::vector<uint8_t>& d){ std::vector<uint8_t> v; s4(v,t); p32(v,d.size()); v.insert(v.end(),d.begin(),d.end()); if(d.size()&1) v.push_back(0); return v; }
int main(int argc, char** argv)
{
	unsigned n = argc > 1 ? atoi(argv[1]) : 65536;   // number of Y headers
	std::vector<uint8_t> dblk; s4(dblk, "dblk");
	for(unsigned k = 0; k <= n; k++)
	{
		std::vector<uint8_t> d;
		// id: entry 0 -> slot 0 (sample X); the last entry -> slot 1; all others -> slot 2
		p32(d, k == 0 ? 0 : (k == n ? 1 : 2));
		p32(d, k == 0 ? 0 : 1); p32(d, 0); p32(d, 1); p32(d, 0); p32(d, k); p32(d, 8000); p32(d, 0); p32(d, 0);
		auto c = chunk("pcmh", d); dblk.insert(dblk.end(), c.begin(), c.end());
	}
	std::vector<uint8_t> body; s4(body, "MDS0");
	auto add = [&](std::vector<uint8_t> c){ body.insert(body.end(), c.begin(), c.end()); };
	add(chunk("ver ", {0, 6}));
	add(chunk("grp ", {}));
	add(chunk("seq ", {0, 2, 0xaa, 0xaa, 0xbb, 0xbb, 0xcc, 0xcc}));
	add(chunk("LIST", dblk));
	add(chunk("pcmd", {'X', 'Y'}));
	auto file = chunk("RIFF", body);
	fprintf(stderr, "file: %zu bytes, %u pcmh entries\n", file.size(), n + 1);
	MDSDRV_Linker linker;
	RIFF mds(file);
	freopen("/dev/null", "w", stdout);
	linker.add_song(mds, "a");
	auto seq = linker.get_seq_data();
	auto pcm = linker.get_pcm_data();
	// header 12 + 4 song table; data bank follows
	uint32_t song = (seq[12]<<24)|(seq[13]<<16)|(seq[14]<<8)|seq[15];
	const uint8_t* s = &seq[8 + song];
	for(int slot = 0; slot < 3; slot++)
	{
		unsigned t = (s[2 + 2*slot] << 8) | s[3 + 2*slot];
		const uint8_t* h = &seq[8 + t];
		unsigned addr = (h[1]<<16)|(h[2]<<8)|h[3], size = (h[4]<<24)|(h[5]<<16)|(h[6]<<8)|h[7];
		fprintf(stderr, "slot %d -> entry at %u: address %u size %u -> byte '%c'   (wanted '%c')\n", slot, t, addr, size, pcm[addr], slot == 0 ? 'X' : 'Y');
	}
	fprintf(stderr, "pcm bank: %zu bytes\n", pcm.size());
	return 0;
}
