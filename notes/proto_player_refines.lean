/- Prototype: flat bracket machine refines tree expansion (loops + break, no calls). -/
inductive Ev where
  | plain (n : Nat)
  | ls
  | lb
  | le (cnt : Nat)
  deriving Repr, DecidableEq

structure Frame where
  pos : Nat
  endPos : Nat
  count : Nat
  deriving Repr, DecidableEq

structure St where
  pos : Nat
  stack : List Frame
  out : List Nat
  deriving Repr, DecidableEq

/-- one step of the machine; none = error or end -/
def step (code : List Ev) (s : St) : Option St :=
  match code[s.pos]? with
  | none => none
  | some (.plain n) => some { s with pos := s.pos + 1, out := s.out ++ [n] }
  | some .ls => some { s with pos := s.pos + 1, stack := ⟨s.pos + 1, 0, 0⟩ :: s.stack }
  | some .lb =>
      match s.stack with
      | [] => none
      | f :: r => if f.count = 1 then some { s with pos := f.endPos, stack := r }
                  else some { s with pos := s.pos + 1 }
  | some (.le c) =>
      match s.stack with
      | [] => none
      | f :: r =>
          let cnt := if f.count = 0 then c else f.count
          if cnt - 1 > 0 then some { s with pos := f.pos, stack := ⟨f.pos, s.pos + 1, cnt - 1⟩ :: r }
          else some { s with pos := s.pos + 1, stack := r }

def steps (code : List Ev) : Nat → St → Option St
  | 0, s => some s
  | k+1, s => (step code s).bind (steps code k)

theorem steps_add (code : List Ev) (a b : Nat) (s : St) :
    steps code (a + b) s = (steps code a s).bind (steps code b) := by
  induction a generalizing s with
  | zero => simp [steps]
  | succ a ih =>
    have : a + 1 + b = (a + b) + 1 := by omega
    rw [this]; simp only [steps]
    cases h : step code s with
    | none => simp
    | some s' => simp [ih]

inductive Node where
  | ev (n : Nat)
  | brk
  | loop (body : List Node) (cnt : Nat)

mutual
def flattenN : Node → List Ev
  | .ev n => [.plain n]
  | .brk => [.lb]
  | .loop b c => .ls :: (flattenL b ++ [.le c])
def flattenL : List Node → List Ev
  | [] => []
  | n :: ns => flattenN n ++ flattenL ns
end

-- events before the first top-level break / whole list
mutual
def expN : Node → List Nat
  | .ev n => [n]
  | .brk => []
  | .loop b c =>
      let full := expL b
      let pre := expPre b
      if c < 2 then full else (List.replicate (c - 1) full).flatten ++ pre
def expL : List Node → List Nat
  | [] => []
  | n :: ns => expN n ++ expL ns
def expPre : List Node → List Nat
  | [] => []
  | .brk :: _ => []
  | n :: ns => expN n ++ expPre ns
end

def Runs (code : List Ev) (s s' : St) : Prop := ∃ k, steps code k s = some s'

theorem Runs.refl (code : List Ev) (s : St) : Runs code s s := ⟨0, rfl⟩

theorem Runs.trans {code : List Ev} {a b c : St} (h1 : Runs code a b) (h2 : Runs code b c) : Runs code a c := by
  obtain ⟨k1, h1⟩ := h1; obtain ⟨k2, h2⟩ := h2
  exact ⟨k1 + k2, by rw [steps_add, h1]; simpa using h2⟩

theorem Runs.one {code : List Ev} {a b : St} (h : step code a = some b) : Runs code a b :=
  ⟨1, by simp [steps, h]⟩

theorem get_mid (pre : List Ev) (x : Ev) (post : List Ev) : (pre ++ x :: post)[pre.length]? = some x := by simp

def topBrkFree : List Node → Bool
  | [] => true
  | .brk :: _ => false
  | _ :: ns => topBrkFree ns

theorem expPre_eq_expL : ∀ f : List Node, topBrkFree f = true → expPre f = expL f
  | [], _ => rfl
  | .brk :: _, h => by simp [topBrkFree] at h
  | .ev n :: ns, h => by simp [expPre, expL, expPre_eq_expL ns (by simpa [topBrkFree] using h)]
  | .loop b c :: ns, h => by simp [expPre, expL, expPre_eq_expL ns (by simpa [topBrkFree] using h)]

def PassOK (f : List Node) (σ : List Frame) : Prop :=
  topBrkFree f = true ∨ ∃ fr r, σ = fr :: r ∧ fr.count ≠ 1

theorem loop_iter (code : List Ev) (P Q : Nat) (full preB : List Nat) (c0 : Nat) (bf : Bool)
    (hle : code[Q]? = some (.le c0))
    (hpass : ∀ σ out, (bf = true ∨ ∃ fr r, σ = fr :: r ∧ fr.count ≠ 1) →
        Runs code ⟨P, σ, out⟩ ⟨Q, σ, out ++ full⟩)
    (hlast : bf = false → ∀ p r out, Runs code ⟨P, ⟨p, Q+1, 1⟩ :: r, out⟩ ⟨Q+1, r, out ++ preB⟩)
    (hpre : bf = true → preB = full) :
    ∀ k, k ≥ 1 → ∀ σ out, Runs code ⟨P, ⟨P, Q+1, k⟩ :: σ, out⟩
        ⟨Q+1, σ, out ++ (List.replicate (k-1) full).flatten ++ preB⟩ := by
  intro k
  induction k with
  | zero => intro h; omega
  | succ k ih =>
    intro _ σ out
    cases k with
    | zero =>
      -- last iteration
      cases hb : bf with
      | false => simpa using hlast hb P σ out
      | true =>
        have h1 := hpass (⟨P, Q+1, 1⟩ :: σ) out (Or.inl hb)
        have h2 : step code ⟨Q, ⟨P, Q+1, 1⟩ :: σ, out ++ full⟩ = some ⟨Q+1, σ, out ++ full⟩ := by
          simp [step, hle]
        have := Runs.trans h1 (Runs.one h2)
        simpa [hpre hb] using this
    | succ k =>
      have h1 := hpass (⟨P, Q+1, k+2⟩ :: σ) out (Or.inr ⟨_, _, rfl, by simp⟩)
      have h2 : step code ⟨Q, ⟨P, Q+1, k+2⟩ :: σ, out ++ full⟩
          = some ⟨P, ⟨P, Q+1, k+1⟩ :: σ, out ++ full⟩ := by
        simp [step, hle]
      have h3 := ih (by omega) σ (out ++ full)
      have := Runs.trans (Runs.trans h1 (Runs.one h2)) h3
      simpa [List.replicate_succ, List.append_assoc] using this

theorem flattenL_cons (n : Node) (ns : List Node) : flattenL (n :: ns) = flattenN n ++ flattenL ns := by
  simp [flattenL]

mutual
theorem passN : ∀ (n : Node) (pre post : List Ev) (σ : List Frame) (out : List Nat),
    PassOK [n] σ →
    Runs (pre ++ flattenN n ++ post) ⟨pre.length, σ, out⟩
      ⟨pre.length + (flattenN n).length, σ, out ++ expN n⟩
  | .ev n, pre, post, σ, out, _ => by
    apply Runs.one
    simp [flattenN, expN, step]
  | .brk, pre, post, σ, out, h => by
    rcases h with h | ⟨fr, r, rfl, hc⟩
    · simp [topBrkFree] at h
    · apply Runs.one
      simp [flattenN, expN, step, hc]
  | .loop b c, pre, post, σ, out, _ => by
    -- code layout
    have hcode : pre ++ flattenN (.loop b c) ++ post
        = (pre ++ [Ev.ls]) ++ flattenL b ++ (Ev.le c :: post) := by
      simp [flattenN, List.append_assoc]
    rw [hcode]
    obtain ⟨code, hcd⟩ : ∃ code, code = (pre ++ [Ev.ls]) ++ flattenL b ++ (Ev.le c :: post) := ⟨_, rfl⟩
    rw [← hcd]
    obtain ⟨P, hPd⟩ : ∃ P, P = pre.length + 1 := ⟨_, rfl⟩
    obtain ⟨Q, hQd⟩ : ∃ Q, Q = P + (flattenL b).length := ⟨_, rfl⟩
    have hP : (pre ++ [Ev.ls]).length = P := by simp [hPd]
    have hls : code[pre.length]? = some Ev.ls := by
      simp [hcd, List.append_assoc]
    have hle : code[Q]? = some (Ev.le c) := by
      have : Q = ((pre ++ [Ev.ls]) ++ flattenL b).length := by simp [hQd, hPd]; omega
      rw [this, hcd]; exact get_mid _ _ _
    have hpass : ∀ σ' out', (topBrkFree b = true ∨ ∃ fr r, σ' = fr :: r ∧ fr.count ≠ 1) →
        Runs code ⟨P, σ', out'⟩ ⟨Q, σ', out' ++ expL b⟩ := by
      intro σ' out' h
      have := passL b (pre ++ [Ev.ls]) (Ev.le c :: post) σ' out' h
      rw [hP, ← hcd, ← hQd] at this
      exact this
    have hlast : topBrkFree b = false → ∀ p r out', Runs code ⟨P, ⟨p, Q+1, 1⟩ :: r, out'⟩
        ⟨Q+1, r, out' ++ expPre b⟩ := by
      intro hb p r out'
      have := lastL b (pre ++ [Ev.ls]) (Ev.le c :: post) p (Q+1) r out' hb
      rw [hP, ← hcd] at this
      exact this
    have hiter := loop_iter code P Q (expL b) (expPre b) c (topBrkFree b) hle hpass hlast
      (expPre_eq_expL b)
    -- first step: ls
    have h0 : step code ⟨pre.length, σ, out⟩ = some ⟨P, ⟨P, 0, 0⟩ :: σ, out⟩ := by
      simp [step, hls, hPd]
    -- first iteration in pass mode (count 0)
    have h1 := hpass (⟨P, 0, 0⟩ :: σ) out (Or.inr ⟨_, _, rfl, by simp⟩)
    have hlen : pre.length + (flattenN (.loop b c)).length = Q + 1 := by
      simp [flattenN, hQd, hPd]; omega
    rw [hlen]
    by_cases hc : c < 2
    · have h2 : step code ⟨Q, ⟨P, 0, 0⟩ :: σ, out ++ expL b⟩ = some ⟨Q+1, σ, out ++ expL b⟩ := by
        have : ¬ (c - 1 > 0) := by omega
        simp [step, hle, this]
      have := Runs.trans (Runs.one h0) (Runs.trans h1 (Runs.one h2))
      simpa [expN, hc] using this
    · have h2 : step code ⟨Q, ⟨P, 0, 0⟩ :: σ, out ++ expL b⟩
          = some ⟨P, ⟨P, Q+1, c-1⟩ :: σ, out ++ expL b⟩ := by
        have : c - 1 > 0 := by omega
        simp [step, hle, this]
      have h3 := hiter (c-1) (by omega) σ (out ++ expL b)
      have := Runs.trans (Runs.one h0) (Runs.trans h1 (Runs.trans (Runs.one h2) h3))
      have hrep : expL b ++ (List.replicate (c - 1 - 1) (expL b)).flatten
          = (List.replicate (c-1) (expL b)).flatten := by
        have : c - 1 = (c - 1 - 1) + 1 := by omega
        rw [this, List.replicate_succ]; simp
      simpa [expN, hc, List.append_assoc, ← hrep] using this
theorem passL : ∀ (f : List Node) (pre post : List Ev) (σ : List Frame) (out : List Nat),
    PassOK f σ →
    Runs (pre ++ flattenL f ++ post) ⟨pre.length, σ, out⟩
      ⟨pre.length + (flattenL f).length, σ, out ++ expL f⟩
  | [], pre, post, σ, out, _ => by simpa [flattenL, expL] using Runs.refl _ _
  | n :: ns, pre, post, σ, out, h => by
    have hn : PassOK [n] σ := by
      rcases h with h | h
      · left; cases n <;> simp_all [topBrkFree]
      · right; exact h
    have hns : PassOK ns σ := by
      rcases h with h | h
      · left; cases n <;> simp_all [topBrkFree]
      · right; exact h
    have h1 := passN n pre (flattenL ns ++ post) σ out hn
    have h2 := passL ns (pre ++ flattenN n) post σ (out ++ expN n) hns
    have := Runs.trans (by simpa [flattenL_cons, List.append_assoc] using h1)
      (by simpa [flattenL_cons, List.append_assoc] using h2)
    simpa [flattenL_cons, expL, List.append_assoc, Nat.add_assoc] using this
theorem lastL : ∀ (f : List Node) (pre post : List Ev) (p E : Nat) (r : List Frame) (out : List Nat),
    topBrkFree f = false →
    Runs (pre ++ flattenL f ++ post) ⟨pre.length, ⟨p, E, 1⟩ :: r, out⟩ ⟨E, r, out ++ expPre f⟩
  | [], _, _, _, _, _, _, h => by simp [topBrkFree] at h
  | .brk :: ns, pre, post, p, E, r, out, _ => by
    apply Runs.one
    simp [flattenL_cons, flattenN, expPre, step]
  | .ev n :: ns, pre, post, p, E, r, out, h => by
    have h1 := passN (.ev n) pre (flattenL ns ++ post) (⟨p, E, 1⟩ :: r) out (Or.inl rfl)
    have h2 := lastL ns (pre ++ flattenN (.ev n)) post p E r (out ++ expN (.ev n))
      (by simpa [topBrkFree] using h)
    have := Runs.trans (by simpa [flattenL_cons, List.append_assoc] using h1)
      (by simpa [flattenL_cons, List.append_assoc] using h2)
    simpa [flattenL_cons, expPre, List.append_assoc] using this
  | .loop b c :: ns, pre, post, p, E, r, out, h => by
    have h1 := passN (.loop b c) pre (flattenL ns ++ post) (⟨p, E, 1⟩ :: r) out (Or.inl rfl)
    have h2 := lastL ns (pre ++ flattenN (.loop b c)) post p E r (out ++ expN (.loop b c))
      (by simpa [topBrkFree] using h)
    have := Runs.trans (by simpa [flattenL_cons, List.append_assoc] using h1)
      (by simpa [flattenL_cons, List.append_assoc] using h2)
    simpa [flattenL_cons, expPre, List.append_assoc] using this
end
#print axioms passL
#print axioms lastL
example : expL [.ev 1, .loop [.ev 2, .brk, .ev 3] 3, .ev 4] = [1,2,3,2,3,2,4] := by decide
