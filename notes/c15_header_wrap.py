#!/usr/bin/env python3
"""Replay input for the repaired defect `fixed: property=C15 5952bf5` (sequence header wraps at 16 bits).

    python3 notes/c15_header_wrap.py > hw.mml ; mmlc -f mds hw.mml

One channel track names macro track *100; *100 names 32765 further (empty) macro tracks with the
pan-envelope command `P` and uses two PSG instruments.  convert_macro_track ignores MTAB/INS events,
so no index is range-checked; the header needs 8 + 2*(32766 + 2) = 65544 bytes.  Before the fix
header_size wrapped to 8, the pointer table (65532 bytes) was written over the streams and, after
track_header_offset wrapped too, over the first header bytes (file written, exit status 0, the
`seq ` chunk began ff fb ff fd).  Since the fix: InputError "MDSDRV: sequence header too large".
About 17 s under ASan (the validator visits every track); not a harness case for that reason.
"""
nM = 32766
print("@1 psg 15")
print("@2 psg 14")
print("A P100")
print("*100 @1 @2 " + " ".join("P%d" % (i + 101) for i in range(nM - 1)))
for i in range(nM - 1):
    print("*%d @1" % (i + 101))
