/- Prototype: le32/be32 byte arithmetic and the get_chunk size bug (D8) -/
def le32 (n : Nat) : List UInt8 :=
  [UInt8.ofNat n, UInt8.ofNat (n / 256), UInt8.ofNat (n / 65536), UInt8.ofNat (n / 16777216)]
def be32 (n : Nat) : List UInt8 := (le32 n).reverse

def rdLe32 : List UInt8 → Option Nat
  | b0 :: b1 :: b2 :: b3 :: _ => some (b0.toNat + 256 * b1.toNat + 65536 * b2.toNat + 16777216 * b3.toNat)
  | _ => none
def rdBe32 : List UInt8 → Option Nat
  | b3 :: b2 :: b1 :: b0 :: _ => some (b0.toNat + 256 * b1.toNat + 65536 * b2.toNat + 16777216 * b3.toNat)
  | _ => none

theorem rdLe32_le32 (n : Nat) (h : n < 4294967296) (rest : List UInt8) : rdLe32 (le32 n ++ rest) = some n := by
  simp [le32, rdLe32]
  omega

theorem rdBe32_be32 (n : Nat) (h : n < 4294967296) (rest : List UInt8) : rdBe32 (be32 n ++ rest) = some n := by
  simp [be32, le32, rdBe32]
  omega

/-- what `get_chunk` + `RIFF(vector)` do to a child's size today: written big-endian, read little-endian, clamped -/
def sizeSeenByChild (n actual : Nat) : Option Nat := (rdLe32 (be32 n)).map (fun s => if s > actual then actual else s)

theorem d8_witness : sizeSeenByChild 65536 65536 = some 256 := by decide
#print axioms rdLe32_le32
#print axioms d8_witness
