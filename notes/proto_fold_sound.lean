/- Prototype: soundness of the optimiser's loop fold on flat bracket lists, via the bracket-stack
   parser, a congruence on forests, and the algebra of `expL`. (Reduced events: plain n | ls | lb | le c.) -/
inductive Ev where
  | plain (n : Nat) | ls | lb | le (cnt : Nat)
  deriving Repr, DecidableEq

inductive Node where
  | ev (n : Nat) | brk | loop (body : List Node) (cnt : Nat)
  deriving Repr

mutual
def flattenN : Node → List Ev
  | .ev n => [.plain n]
  | .brk => [.lb]
  | .loop b c => .ls :: (flattenL b ++ [.le c])
def flattenL : List Node → List Ev
  | [] => []
  | n :: ns => flattenN n ++ flattenL ns
end

mutual
def expN : Node → List Nat
  | .ev n => [n]
  | .brk => []
  | .loop b c =>
      if c < 2 then expL b else (List.replicate (c - 1) (expL b)).flatten ++ expPre b
def expL : List Node → List Nat
  | [] => []
  | n :: ns => expN n ++ expL ns
def expPre : List Node → List Nat
  | [] => []
  | .brk :: _ => []
  | n :: ns => expN n ++ expPre ns
end

def topBrkFree : List Node → Bool
  | [] => true
  | .brk :: _ => false
  | _ :: ns => topBrkFree ns

/-! ## bracket-stack parser -/
structure PSt where
  cur : List Node
  stk : List (List Node)
  deriving Repr

def pstep (s : PSt) : Ev → Option PSt
  | .plain n => some { s with cur := s.cur ++ [.ev n] }
  | .ls => some { cur := [], stk := s.cur :: s.stk }
  | .lb => if s.stk.isEmpty then none else some { s with cur := s.cur ++ [.brk] }
  | .le c => match s.stk with
      | [] => none
      | outer :: rest => some { cur := outer ++ [.loop s.cur c], stk := rest }

def prun (s : PSt) : List Ev → Option PSt
  | [] => some s
  | e :: es => (pstep s e).bind (fun s' => prun s' es)

def parse (l : List Ev) : Option (List Node) :=
  (prun ⟨[], []⟩ l).bind (fun s => if s.stk.isEmpty then some s.cur else none)

theorem prun_append (s : PSt) (a b : List Ev) :
    prun s (a ++ b) = (prun s a).bind (fun s' => prun s' b) := by
  induction a generalizing s with
  | nil => simp [prun]
  | cons e a ih =>
    simp only [List.cons_append, prun]
    cases pstep s e with
    | none => simp
    | some s' => simp [ih]

theorem flattenL_append (a b : List Node) : flattenL (a ++ b) = flattenL a ++ flattenL b := by
  induction a with
  | nil => simp [flattenL]
  | cons n a ih => simp [flattenL, ih, List.append_assoc]

-- parsing a flattened forest appends that forest to the current level
mutual
theorem prun_flattenN : ∀ (n : Node) (s : PSt), (topBrkFree [n] = true ∨ s.stk ≠ []) →
    prun s (flattenN n) = some { s with cur := s.cur ++ [n] }
  | .ev n, s, _ => by simp [flattenN, prun, pstep]
  | .brk, s, h => by
    rcases h with h | h
    · simp [topBrkFree] at h
    · cases hs : s.stk with
      | nil => exact absurd hs h
      | cons a r => simp [flattenN, prun, pstep, hs]
  | .loop b c, s, _ => by
    have ih := prun_flattenL b ⟨[], s.cur :: s.stk⟩ (Or.inr (by simp))
    simp only [flattenN, prun, pstep, Option.bind_some]
    rw [prun_append, ih]
    simp [prun, pstep]
theorem prun_flattenL : ∀ (f : List Node) (s : PSt), (topBrkFree f = true ∨ s.stk ≠ []) →
    prun s (flattenL f) = some { s with cur := s.cur ++ f }
  | [], s, _ => by simp [flattenL, prun]
  | n :: ns, s, h => by
    have hn : topBrkFree [n] = true ∨ s.stk ≠ [] := by
      rcases h with h | h
      · left; cases n <;> simp_all [topBrkFree]
      · right; exact h
    have hns : topBrkFree ns = true ∨ s.stk ≠ [] := by
      rcases h with h | h
      · left; cases n <;> simp_all [topBrkFree]
      · right; exact h
    simp only [flattenL]
    rw [prun_append, prun_flattenN n s hn]
    simp only [Option.bind_some]
    rw [prun_flattenL ns ⟨s.cur ++ [n], s.stk⟩ hns]
    simp [List.append_assoc]
end

theorem parse_flatten (f : List Node) (h : topBrkFree f = true) : parse (flattenL f) = some f := by
  simp [parse, prun_flattenL f ⟨[], []⟩ (Or.inl h)]

/-! ## semantic equivalence of forests and parser congruence -/
theorem expL_append (a b : List Node) : expL (a ++ b) = expL a ++ expL b := by
  induction a with
  | nil => simp [expL]
  | cons n a ih => simp [expL, ih, List.append_assoc]

theorem topBrkFree_append (a b : List Node) : topBrkFree (a ++ b) = (topBrkFree a && topBrkFree b) := by
  induction a with
  | nil => simp [topBrkFree]
  | cons n a ih => cases n <;> simp [topBrkFree, ih]

theorem expPre_append (a b : List Node) :
    expPre (a ++ b) = if topBrkFree a then expL a ++ expPre b else expPre a := by
  induction a with
  | nil => simp [expPre, expL, topBrkFree]
  | cons n a ih =>
    cases n with
    | brk => simp [expPre, topBrkFree]
    | ev k =>
      simp only [List.cons_append, expPre, expL, topBrkFree, ih]
      by_cases h : topBrkFree a = true <;> simp [h, List.append_assoc]
    | loop bd c =>
      simp only [List.cons_append, expPre, expL, topBrkFree, ih]
      by_cases h : topBrkFree a = true <;> simp [h, List.append_assoc]

inductive All2 (R : List Node → List Node → Prop) : List (List Node) → List (List Node) → Prop
  | nil : All2 R [] []
  | cons {a b : List Node} {as bs : List (List Node)} : R a b → All2 R as bs → All2 R (a :: as) (b :: bs)

structure FEq (f g : List Node) : Prop where
  l : expL f = expL g
  p : expPre f = expPre g
  b : topBrkFree f = topBrkFree g

theorem FEq.refl (f : List Node) : FEq f f := ⟨rfl, rfl, rfl⟩

theorem FEq.append {a a' b b' : List Node} (h1 : FEq a a') (h2 : FEq b b') : FEq (a ++ b) (a' ++ b') := by
  refine ⟨?_, ?_, ?_⟩
  · simp [expL_append, h1.l, h2.l]
  · simp [expPre_append, h1.l, h1.p, h1.b, h2.p]
  · simp [topBrkFree_append, h1.b, h2.b]

theorem FEq.loop {b b' : List Node} (h : FEq b b') (c : Nat) : FEq [.loop b c] [.loop b' c] := by
  refine ⟨?_, ?_, ?_⟩
  · simp [expL, expN, h.l, h.p]
  · simp [expPre, expN, h.l, h.p]
  · simp [topBrkFree]

structure SEq (s t : PSt) : Prop where
  cur : FEq s.cur t.cur
  stk : All2 FEq s.stk t.stk

def ORel (R : PSt → PSt → Prop) : Option PSt → Option PSt → Prop
  | none, none => True
  | some a, some b => R a b
  | _, _ => False

theorem pstep_cong {s t : PSt} (h : SEq s t) (e : Ev) : ORel SEq (pstep s e) (pstep t e) := by
  obtain ⟨sc, ss⟩ := s
  obtain ⟨tc, ts⟩ := t
  have hc : FEq sc tc := h.cur
  have hs : All2 FEq ss ts := h.stk
  cases e with
  | plain n =>
    exact ⟨FEq.append hc (FEq.refl _), hs⟩
  | ls =>
    exact ⟨FEq.refl _, All2.cons hc hs⟩
  | lb =>
    cases hs with
    | nil => simp [pstep, ORel]
    | cons hd tl =>
      simp only [pstep, List.isEmpty_cons, ORel]
      exact ⟨FEq.append hc (FEq.refl _), All2.cons hd tl⟩
  | le c =>
    cases hs with
    | nil => simp [pstep, ORel]
    | cons hd tl =>
      simp only [pstep, ORel]
      exact ⟨FEq.append hd (FEq.loop hc c), tl⟩

theorem prun_cong : ∀ (l : List Ev) {s t : PSt}, SEq s t → ORel SEq (prun s l) (prun t l)
  | [], s, t, h => by simpa [prun, ORel] using h
  | e :: es, s, t, h => by
    have h1 := pstep_cong h e
    simp only [prun]
    cases hs : pstep s e with
    | none =>
      cases ht : pstep t e with
      | none => simp [ORel]
      | some t' => rw [hs, ht] at h1; exact absurd h1 (by simp [ORel])
    | some s' =>
      cases ht : pstep t e with
      | none => rw [hs, ht] at h1; exact absurd h1 (by simp [ORel])
      | some t' =>
        rw [hs, ht] at h1
        simpa using prun_cong es h1

/-- meaning of a flat list: parse, then expand (none = structurally invalid) -/
def sem (l : List Ev) : Option (List Nat) := (parse l).map expL

/-- Context lemma: a balanced, break-free segment may be replaced by any semantically equal one. -/
theorem sem_context (pre post : List Ev) (fX fX' : List Node)
    (hb : topBrkFree fX = true) (hb' : topBrkFree fX' = true) (heq : FEq fX fX') :
    sem (pre ++ flattenL fX ++ post) = sem (pre ++ flattenL fX' ++ post) := by
  unfold sem parse
  rw [prun_append, prun_append, prun_append, prun_append]
  cases hp : prun ⟨[], []⟩ pre with
  | none => simp
  | some σ =>
    simp only [Option.bind_some]
    rw [prun_flattenL fX σ (Or.inl hb), prun_flattenL fX' σ (Or.inl hb')]
    simp only [Option.bind_some]
    have hs : SEq { σ with cur := σ.cur ++ fX } { σ with cur := σ.cur ++ fX' } := by
      refine ⟨FEq.append (FEq.refl _) heq, ?_⟩
      generalize σ.stk = k
      induction k with
      | nil => exact All2.nil
      | cons a k ih => exact All2.cons (FEq.refl _) ih
    have h2 := prun_cong post hs
    cases h1 : prun { σ with cur := σ.cur ++ fX } post with
    | none =>
      cases h1' : prun { σ with cur := σ.cur ++ fX' } post with
      | none => simp
      | some b => rw [h1, h1'] at h2; exact absurd h2 (by simp [ORel])
    | some a =>
      cases h1' : prun { σ with cur := σ.cur ++ fX' } post with
      | none => rw [h1, h1'] at h2; exact absurd h2 (by simp [ORel])
      | some b =>
        rw [h1, h1'] at h2
        have hc : FEq a.cur b.cur := h2.cur
        have hk : All2 FEq a.stk b.stk := h2.stk
        obtain ⟨ac, ak⟩ := a
        obtain ⟨bc, bk⟩ := b
        cases hk with
        | nil => simp [hc.l]
        | cons _ _ => simp

/-! ## the loop fold -/
theorem expL_rep (f : List Node) (k : Nat) :
    expL (List.replicate k f).flatten = (List.replicate k (expL f)).flatten := by
  induction k with
  | zero => simp [expL]
  | succ k ih => simp [List.replicate_succ, expL_append, ih]

theorem tbf_rep (f : List Node) (k : Nat) (h : topBrkFree f = true) :
    topBrkFree (List.replicate k f).flatten = true := by
  induction k with
  | zero => simp [topBrkFree]
  | succ k ih => simp [List.replicate_succ, topBrkFree_append, h, ih]

theorem expPre_of_tbf : ∀ f : List Node, topBrkFree f = true → expPre f = expL f
  | [], _ => rfl
  | .brk :: _, h => by simp [topBrkFree] at h
  | .ev n :: ns, h => by simp [expPre, expL, expPre_of_tbf ns (by simpa [topBrkFree] using h)]
  | .loop b c :: ns, h => by simp [expPre, expL, expPre_of_tbf ns (by simpa [topBrkFree] using h)]

/-- `A · A^k · A0`  ≈  `[ A0 / A1 ](k+2)`  where `A = A0 · A1` -/
theorem fold_FEq (fA0 fA1 : List Node) (k : Nat)
    (h0 : topBrkFree fA0 = true) (h1 : topBrkFree fA1 = true) :
    FEq ((fA0 ++ fA1) ++ (List.replicate k (fA0 ++ fA1)).flatten ++ fA0)
        [.loop (fA0 ++ .brk :: fA1) (k + 2)] := by
  have hA : topBrkFree (fA0 ++ fA1) = true := by simp [topBrkFree_append, h0, h1]
  have hall : topBrkFree ((fA0 ++ fA1) ++ (List.replicate k (fA0 ++ fA1)).flatten ++ fA0) = true := by
    simp [topBrkFree_append, h0, h1, tbf_rep _ k hA]
  have hbody : expL (fA0 ++ .brk :: fA1) = expL fA0 ++ expL fA1 := by
    simp [expL_append, expL, expN]
  have hpre : expPre (fA0 ++ .brk :: fA1) = expL fA0 := by
    simp [expPre_append, h0, expPre]
  have hL : expL ((fA0 ++ fA1) ++ (List.replicate k (fA0 ++ fA1)).flatten ++ fA0)
      = expN (.loop (fA0 ++ .brk :: fA1) (k + 2)) := by
    have hk : ¬ (k + 2 < 2) := by omega
    simp only [expN, hk, if_false, hbody, hpre]
    have : k + 2 - 1 = k + 1 := by omega
    rw [this, List.replicate_succ]
    simp [expL_append, expL_rep, List.append_assoc]
  refine ⟨?_, ?_, ?_⟩
  · rw [hL]; simp [expL]
  · rw [expPre_of_tbf _ hall, hL]; simp [expPre]
  · rw [hall]; simp [topBrkFree]

/-- Soundness of the fold on flat lists, in any context (the context need not be balanced). -/
theorem fold_sound (pre post : List Ev) (fA0 fA1 : List Node) (k : Nat)
    (h0 : topBrkFree fA0 = true) (h1 : topBrkFree fA1 = true) :
    sem (pre ++ (flattenL (fA0 ++ fA1) ++ flattenL ((List.replicate k (fA0 ++ fA1)).flatten ++ fA0)) ++ post)
    = sem (pre ++ (.ls :: (flattenL fA0 ++ .lb :: flattenL fA1 ++ [.le (k + 2)])) ++ post) := by
  have hA : topBrkFree (fA0 ++ fA1) = true := by simp [topBrkFree_append, h0, h1]
  have hall : topBrkFree ((fA0 ++ fA1) ++ (List.replicate k (fA0 ++ fA1)).flatten ++ fA0) = true := by
    simp [topBrkFree_append, h0, h1, tbf_rep _ k hA]
  have := sem_context pre post _ _ hall (by simp [topBrkFree]) (fold_FEq fA0 fA1 k h0 h1)
  simpa [flattenL_append, flattenL, flattenN, List.append_assoc] using this

#print axioms fold_sound
