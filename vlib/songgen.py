"""Structured song generator shared by the player-centred properties (C01–C04, C12).
Songs are produced as IR: {track id: [events]} with events (type, param, on, off)."""
import os, re

ROOT = os.path.dirname(os.path.dirname(os.path.abspath(__file__)))


def event_types():
    """Event::Type numbering, read from the regenerated Tables.lean (never hard-coded)."""
    s = open(os.path.join(ROOT, "lean", "Ctrmml", "Generated", "Tables.lean")).read()
    m = re.search(r"def eventTypes[^\n]*:= \[(.*?)\]\n", s)
    out = {}
    for mm in re.finditer(r'\("(\w+)", (-?\d+)\)', m.group(1)):
        out[mm.group(1)] = int(mm.group(2))
    return out


class G:
    def __init__(self, rng, **kw):
        self.rng = rng
        self.T = event_types()
        self.max_depth = kw.get("max_depth", 4)
        self.counts = kw.get("counts", [0, 1, 2, 2, 3, 3, 4, 255, -1])
        self.allow_neg = kw.get("allow_neg", True)
        self.cmds = kw.get("cmds", ["VOL", "INS", "TRANSPOSE", "PAN", "VOL_REL", "TEMPO_BPM", "DETUNE", "TRANSPOSE_REL", "VOL_FINE", "TEMPO", "SLUR"])
        self.subs = kw.get("subs", [100, 101, 102])
        self.p_call = kw.get("p_call", 0.12)
        self.p_loop = kw.get("p_loop", 0.2)
        self.p_break = kw.get("p_break", 0.5)
        self.p_break2 = kw.get("p_break2", 0.15)
        self.p_segno = kw.get("p_segno", 0.06)
        self.durs = kw.get("durs", [1, 2, 3, 6, 12, 24, 48, 96, 127, 128, 129, 200])
        self.max_items = kw.get("max_items", 7)
        self.notes = kw.get("notes", list(range(24, 60)))

    def ev(self, name, p=0, on=0, off=0):
        return (self.T[name], p, on, off)

    def item(self, depth, in_loop, segno_ok):
        r = self.rng.random()
        if r < self.p_loop and depth < self.max_depth:
            return self.loop(depth, segno_ok)
        r -= self.p_loop
        if r < self.p_call and self.subs:
            return [self.ev("JUMP", self.rng.choice(self.subs))]
        r -= self.p_call
        if r < self.p_segno and segno_ok:
            return [self.ev("SEGNO")]
        r -= self.p_segno
        if r < 0.12:
            c = self.rng.choice(self.cmds)
            return [self.ev(c, self.rng.randrange(-3, 16))]
        if r < 0.24:
            return [self.ev("REST", 0, 0, self.rng.choice(self.durs))]
        if r < 0.30:
            d = self.rng.choice(self.durs)
            on = self.rng.randrange(0, d + 1)
            return [self.ev("TIE", 0, on, d - on)]
        d = self.rng.choice(self.durs)
        on = self.rng.randrange(1, d + 1)
        return [self.ev("NOTE", self.rng.choice(self.notes), on, d - on)]

    def seq(self, depth, in_loop, segno_ok, n=None):
        out = []
        for _ in range(self.rng.randrange(0, self.max_items + 1) if n is None else n):
            out += self.item(depth, in_loop, segno_ok)
        return out

    def loop(self, depth, segno_ok):
        body = self.seq(depth + 1, True, segno_ok and self.rng.random() < 0.15)
        if self.rng.random() < self.p_break:
            k = self.rng.randrange(0, len(body) + 1)
            # insert the break only at a top-level boundary of the body
            cuts = [0]
            d = 0
            for i, e in enumerate(body):
                if e[0] == self.T["LOOP_START"]:
                    d += 1
                if e[0] == self.T["LOOP_END"]:
                    d -= 1
                if d == 0:
                    cuts.append(i + 1)
            k = self.rng.choice(cuts)
            body = body[:k] + [self.ev("LOOP_BREAK")] + body[k:]
            if self.rng.random() < self.p_break2:
                # a second break in the same loop (never taken: the loop is left at the first one)
                k2 = self.rng.choice(cuts)
                if k2 > k:
                    k2 += 1
                body = body[:k2] + [self.ev("LOOP_BREAK")] + body[k2:]
        c = self.rng.choice(self.counts)
        if c < 0 and not self.allow_neg:
            c = 2
        return [self.ev("LOOP_START")] + body + [self.ev("LOOP_END", c)]

    def song(self, ntracks=1, sub_depth=2):
        s = {}
        for t in range(ntracks):
            s[t] = self.seq(0, False, True)
        subs = list(self.subs)
        for i, sid in enumerate(subs):
            # a subroutine may call later-numbered subroutines (acyclic) unless recursion is asked for
            save = self.subs
            self.subs = subs[i + 1:]
            s[sid] = self.seq(1, False, False)
            self.subs = save
        return s


def expanded_size(song, root, T, limit=6000):
    """rough size of the expansion (to keep cases small); returns limit+1 when too large or recursive"""
    memo = {}

    def size(evs, depth):
        total = 0
        stack = [[1, 0]]  # multiplier handled by recursion on the flat list
        # parse into nested structure
        def parse(i):
            n = 0
            while i < len(evs):
                t, p, on, off = evs[i]
                if t == T["LOOP_START"]:
                    inner, j = parse(i + 1)
                    cnt = evs[j][1] if j < len(evs) else 1
                    n += inner * max(1, cnt) + 2
                    i = j + 1
                elif t == T["LOOP_END"]:
                    return n, i
                elif t == T["JUMP"]:
                    n += 1 + track_size(p & 0xffff, depth + 1)
                    i += 1
                else:
                    n += 1
                    i += 1
                if n > limit:
                    return limit + 1, len(evs)
            return n, i
        return parse(0)[0]

    def track_size(tid, depth):
        if depth > 12 or tid not in song:
            return 1
        return size(song[tid], depth)

    return track_size(root, 0)


def render(song):
    return " ".join("T%d:%s" % (tid, ",".join("%d.%d.%d.%d" % e for e in evs)) for tid, evs in sorted(song.items()))


def parse_request_song(req):
    song = {}
    for tok in req.split():
        m = re.match(r"T(\d+):?(.*)$", tok)
        if m and tok[1:2].isdigit():
            evs = []
            for e in m.group(2).split(","):
                if e:
                    evs.append(tuple(int(x) for x in e.split(".")))
            song[int(m.group(1))] = evs
    return song


def shrink_song(song):
    """candidates with one event removed / one loop count lowered / one track dropped"""
    for tid in sorted(song):
        evs = song[tid]
        if tid != min(song) and len(song) > 1:
            s2 = dict(song)
            del s2[tid]
            yield s2
        for i in range(len(evs)):
            s2 = dict(song)
            s2[tid] = evs[:i] + evs[i + 1:]
            yield s2
        for i, e in enumerate(evs):
            if e[1] > 2:
                s2 = dict(song)
                s2[tid] = evs[:i] + [(e[0], 2, e[2], e[3])] + evs[i + 1:]
                yield s2
            if e[2] + e[3] > 2:
                s2 = dict(song)
                s2[tid] = evs[:i] + [(e[0], e[1], 1 if e[2] else 0, 1 if e[3] else 0)] + evs[i + 1:]
                yield s2
