"""Framework core: builds (Lean + harness), runs (harness with crash recovery, Lean driver),
proof audit, verdict protocol, evidence, known findings.  Python 3 stdlib only."""
import fcntl, hashlib, json, os, random, re, shutil, signal, subprocess, sys, time
from concurrent.futures import ThreadPoolExecutor

ROOT = os.path.dirname(os.path.dirname(os.path.abspath(__file__)))
REPO = os.environ.get("VERIF_REPO", "/repo")
LEAN = os.path.join(ROOT, "lean")
BUILD = os.path.join(ROOT, "build")
EVID = os.path.join(ROOT, "evidence")
REPLAYS = os.path.join(ROOT, "replays")
KNOWN = os.path.join(ROOT, "known_findings.txt")
ALLOWED_AXIOMS = {"propext", "Classical.choice", "Quot.sound"}
FORBIDDEN = re.compile(r"\b(sorry|admit|native_decide|bv_decide|implemented_by|unsafe)\b|^\s*axiom\s|maxHeartbeats\s+0\b", re.M)

CXXFLAGS = ["-std=c++14", "-O1", "-g", "-fsanitize=address,undefined", "-fno-sanitize-recover=undefined",
            "-fno-sanitize=alignment", "-fno-omit-frame-pointer", "-DCTRMML_VERIF"]
LIB_EXCLUDE = {"mmlc.cpp", "mdslink.cpp"}


class InfraError(Exception):
    pass


def log(msg):
    print("[check] " + msg, flush=True)


class Lock:
    def __init__(self, name):
        os.makedirs(BUILD, exist_ok=True)
        self.path = os.path.join(BUILD, name)

    def __enter__(self):
        self.f = open(self.path, "w")
        fcntl.flock(self.f, fcntl.LOCK_EX)
        return self

    def __exit__(self, *a):
        fcntl.flock(self.f, fcntl.LOCK_UN)
        self.f.close()


HARNESS_ENV = {}   # optional per-check additions (check module attribute ENV), applied last


def env_clean():
    e = dict(os.environ)
    e.setdefault("ASAN_OPTIONS", "detect_leaks=0:abort_on_error=0:exitcode=99:allocator_may_return_null=0")
    e.setdefault("UBSAN_OPTIONS", "print_stacktrace=1:halt_on_error=1:exitcode=98")
    e.update(HARNESS_ENV)
    return e


# ------------------------------------------------------------------ source tree hashing
def repo_sources():
    out = []
    base = os.path.join(REPO, "src")
    for d, _, fs in os.walk(base):
        if "unittest" in d:
            continue
        for f in sorted(fs):
            if f.endswith((".cpp", ".h")):
                out.append(os.path.join(d, f))
    return sorted(out)


def tree_hash(extra_files=(), extra=""):
    h = hashlib.sha256()
    for p in list(repo_sources()) + sorted(extra_files):
        h.update(p.encode())
        with open(p, "rb") as f:
            h.update(f.read())
    h.update(" ".join(CXXFLAGS).encode())
    h.update(extra.encode())
    return h.hexdigest()[:16]


def harness_sources():
    d = os.path.join(ROOT, "harness")
    return sorted(os.path.join(d, f) for f in os.listdir(d) if f.endswith((".cpp", ".h")))


def _compile(args):
    src, obj, flags = args
    cmd = ["g++"] + flags + ["-I" + os.path.join(REPO, "src"), "-I" + os.path.join(ROOT, "harness"), "-c", src, "-o", obj]
    r = subprocess.run(cmd, capture_output=True, text=True)
    return (src, r.returncode, r.stderr)


# other harness variants (C16): name -> (directory prefix, compile flags, link flags)
VARIANTS = {
    "asan": ("h-", CXXFLAGS, ["-fsanitize=address,undefined"]),
    # no sanitizer; harness/h_mallocfill.cpp interposes malloc/realloc/free and fills from $VERIF_FILL_SEED
    "plain": ("hp-", ["-std=c++14", "-O1", "-g", "-fno-omit-frame-pointer", "-DCTRMML_VERIF", "-DVERIF_MALLOC_FILL"], []),
    # the general build WITH UBSan's alignment check (C15, check attribute HARNESS_VARIANT; DESIGN D22)
    "align": ("ha-", [f for f in CXXFLAGS if f != "-fno-sanitize=alignment"], ["-fsanitize=address,undefined"]),
}


def build_harness(variant="asan"):
    """Compile /repo/src (library part) and the harness with ASan+UBSan; cached by content hash.
    Returns the path of the binary. A compile error in /repo/src is an infrastructure error
    (the seeded changes are required to compile).  `variant` selects another flag set (VARIANTS)."""
    prefix, cxxflags, ldflags = VARIANTS[variant]
    hs = harness_sources()
    th = tree_hash(hs, "" if variant == "asan" else variant + " ".join(cxxflags))
    bdir = os.path.join(BUILD, prefix + th)
    exe = os.path.join(bdir, "vharness")
    with Lock(".harness.lock" if variant == "asan" else ".harness-%s.lock" % variant):
        if os.path.exists(exe):
            _note_dropped(bdir)
            return exe
        t0 = time.time()
        tmp = bdir + ".tmp"
        shutil.rmtree(tmp, ignore_errors=True)
        os.makedirs(os.path.join(tmp, "obj"))
        jobs = []
        for s in repo_sources():
            if s.endswith(".cpp") and os.path.basename(s) not in LIB_EXCLUDE:
                jobs.append((s, os.path.join(tmp, "obj", "lib_" + os.path.basename(s) + ".o"), cxxflags))
        for s in hs:
            if s.endswith(".cpp"):
                jobs.append((s, os.path.join(tmp, "obj", "h_" + os.path.basename(s) + ".o"), cxxflags))
        with ThreadPoolExecutor(max_workers=16) as ex:
            res = list(ex.map(_compile, jobs))
        bad = [(s, e) for s, rc, e in res if rc != 0]
        # A handler file (harness/h_<area>.cpp) that no longer compiles against the current tree — it
        # reaches into the code's private state, which a change may have reshaped — is left out: its
        # requests are then answered "bad-request", the correspondence of the checks that use it is
        # broken and they report that, naming the file (HARNESS_DROPPED); the other checks are not
        # affected.  A /repo source or the harness core that does not compile stays an error of the set-up.
        droppable = [(s, e) for s, e in bad if os.path.dirname(s) == os.path.join(ROOT, "harness") and os.path.basename(s).startswith("h_")
                     and os.path.basename(s) not in ("h_main.cpp",)]
        if bad and len(droppable) != len(bad):
            hard = [b for b in bad if b not in droppable][0]
            raise InfraError("harness compile failed: %s\n%s" % (hard[0], hard[1][-3000:]))
        dropped = []
        for s, e in droppable:
            first = next((l for l in e.splitlines() if "error" in l), e.strip().splitlines()[0] if e.strip() else "")
            dropped.append("%s does not compile against the current tree: %s" % (os.path.relpath(s, ROOT), first.strip()[:300]))
        with open(os.path.join(tmp, "dropped.txt"), "w") as f:
            f.write("\n".join(dropped))
        badset = {s for s, _ in droppable}
        jobs = [j for j in jobs if j[0] not in badset]
        objs = [j[1] for j in jobs]
        r = subprocess.run(["g++"] + ldflags + objs + ["-o", os.path.join(tmp, "vharness")],
                           capture_output=True, text=True)
        if r.returncode != 0:
            raise InfraError("harness link failed:\n" + r.stderr[-3000:])
        # the command-line tools, for C19/C15 (plain + sanitized)
        shutil.rmtree(bdir, ignore_errors=True)
        os.rename(tmp, bdir)
        # prune older harness builds
        for d in os.listdir(BUILD):
            if d.startswith(prefix) and d != prefix + th and not d.endswith(".tmp"):
                p = os.path.join(BUILD, d)
                if time.time() - os.path.getmtime(p) > 3600:
                    shutil.rmtree(p, ignore_errors=True)
        log("harness%s built in %.1fs (%s)" % ("" if variant == "asan" else " variant " + variant, time.time() - t0, th))
        _note_dropped(bdir)
        return exe


HARNESS_DROPPED = []


def _note_dropped(bdir):
    p = os.path.join(bdir, "dropped.txt")
    if os.path.exists(p):
        for l in open(p).read().splitlines():
            if l and l not in HARNESS_DROPPED:
                HARNESS_DROPPED.append(l)
                log("harness: " + l)


def build_tools(variant="asan"):
    """The two command-line tools of the current tree (mmlc, mdslink), compiled with the harness
    flags (ASan+UBSan) and linked against the library objects of build_harness(variant); cached in
    the same build directory (same source hash).  Returns {'mmlc': path, 'mdslink': path}."""
    bdir = os.path.dirname(build_harness(variant))
    cxxflags = VARIANTS[variant][1]
    tools = {"mmlc": os.path.join(REPO, "src", "mmlc.cpp"), "mdslink": os.path.join(REPO, "src", "platform", "mdslink.cpp")}
    out = {n: os.path.join(bdir, n) for n in tools}
    with Lock(".tools.lock"):
        if all(os.path.exists(p) for p in out.values()):
            return out
        libobjs = sorted(os.path.join(bdir, "obj", f) for f in os.listdir(os.path.join(bdir, "obj")) if f.startswith("lib_"))
        for n, src in tools.items():
            obj = os.path.join(bdir, "obj", "tool_%s.o" % n)
            s, rc, err = _compile((src, obj, cxxflags))
            if rc != 0:
                raise InfraError("tool compile failed: %s\n%s" % (src, err[-3000:]))
            r = subprocess.run(["g++", "-fsanitize=address,undefined", obj] + libobjs + ["-o", out[n] + ".tmp"], capture_output=True, text=True)
            if r.returncode != 0:
                raise InfraError("tool link failed: %s\n%s" % (n, r.stderr[-3000:]))
            os.rename(out[n] + ".tmp", out[n])
    return out


# ------------------------------------------------------------------ Lean side
def extract_tables():
    r = subprocess.run([sys.executable, os.path.join(ROOT, "tools", "extract_tables.py")], capture_output=True, text=True)
    return r.returncode, (r.stdout + r.stderr).strip()


def lake(args, timeout=3000):
    with Lock(".lake.lock"):
        r = subprocess.run(["lake"] + args, cwd=LEAN, capture_output=True, text=True, timeout=timeout)
    out = "\n".join(l for l in (r.stdout + r.stderr).splitlines() if "WARNING" not in l and not l.startswith("trace:"))
    return r.returncode, out


def build_driver():
    rc, out = lake(["build", "ctrmml_model"])
    if rc != 0:
        return None, out
    return os.path.join(LEAN, ".lake", "build", "bin", "ctrmml_model"), out


def strip_lean_comments(s):
    # remove nested block comments and line comments
    out = []
    i, depth = 0, 0
    while i < len(s):
        if s.startswith("/-", i):
            depth += 1
            i += 2
        elif s.startswith("-/", i) and depth > 0:
            depth -= 1
            i += 2
        elif depth > 0:
            if s[i] == "\n":
                out.append("\n")
            i += 1
        elif s.startswith("--", i):
            while i < len(s) and s[i] != "\n":
                i += 1
        else:
            out.append(s[i])
            i += 1
    return "".join(out)


def lean_closure(module):
    """Module closure (within this package) of a Lean module, by following imports."""
    seen, todo = [], [module]
    while todo:
        m = todo.pop()
        if m in seen:
            continue
        p = os.path.join(LEAN, *m.split(".")) + ".lean"
        if not os.path.exists(p):
            continue
        seen.append(m)
        for l in open(p):
            mm = re.match(r"\s*import\s+(\S+)", l)
            if mm and (mm.group(1).startswith("Ctrmml") or mm.group(1).startswith("Driver")):
                todo.append(mm.group(1))
    return seen


def forbidden_scan(modules):
    hits = []
    for m in modules:
        p = os.path.join(LEAN, *m.split(".")) + ".lean"
        s = strip_lean_comments(open(p).read())
        for mm in FORBIDDEN.finditer(s):
            line = s.count("\n", 0, mm.start()) + 1
            hits.append("%s:%d:%s" % (m, line, mm.group(0).strip()))
    return hits


def property_theorems(module):
    """Names (fully qualified) of the theorems declared in a Properties file."""
    p = os.path.join(LEAN, *module.split(".")) + ".lean"
    s = strip_lean_comments(open(p).read())
    ns = []
    names = []
    for l in s.splitlines():
        m = re.match(r"\s*namespace\s+(\S+)", l)
        if m:
            ns.append(m.group(1))
            continue
        m = re.match(r"\s*end\s+(\S+)", l)
        if m and ns and ns[-1].endswith(m.group(1).split(".")[-1]):
            ns.pop()
            continue
        m = re.match(r"\s*(?:private\s+|protected\s+)?theorem\s+(\S+)", l)
        if m:
            names.append(".".join(ns + [m.group(1)]))
    return names


def prove(module, expected_theorems=None):
    """Build the property module and audit it.  Returns dict with status 'proved'|'broken'."""
    res = {"module": module, "theorems": [], "axioms": {}, "status": "proved", "why": ""}
    rc, out = lake(["build", module])
    if rc != 0:
        # infrastructure vs proof failure
        if re.search(r"error: .*\.lean:\d+:\d+", out) or "error:" in out:
            first = next((l for l in out.splitlines() if l.startswith("error:")), out[-400:])
            res.update(status="broken", why="lake build %s failed: %s" % (module, first), log=out[-4000:])
            return res
        raise InfraError("lake build failed without a Lean error:\n" + out[-2000:])
    names = property_theorems(module)
    res["theorems"] = names
    if expected_theorems:
        missing = [t for t in expected_theorems if not any(n.endswith("." + t) or n == t for n in names)]
        if missing:
            res.update(status="broken", why="property theorem(s) missing from %s: %s" % (module, ", ".join(missing)))
            return res
    if not names:
        res.update(status="broken", why="no theorem in " + module)
        return res
    closure = lean_closure(module)
    hits = forbidden_scan(closure)
    if hits:
        res.update(status="broken", why="forbidden construct: " + "; ".join(hits[:5]))
        return res
    os.makedirs(os.path.join(BUILD, "audit"), exist_ok=True)
    af = os.path.join(BUILD, "audit", module.split(".")[-1] + "_%d.lean" % os.getpid())
    with open(af, "w") as f:
        f.write("import %s\n" % module)
        for n in names:
            f.write("#print axioms %s\n" % n)
    with Lock(".lake.lock"):
        r = subprocess.run(["lake", "env", "lean", af], cwd=LEAN, capture_output=True, text=True, timeout=1200)
    os.unlink(af)
    txt = r.stdout + r.stderr
    if r.returncode != 0:
        res.update(status="broken", why="axiom audit failed: " + txt[-500:])
        return res
    # parse "'name' depends on axioms: [a, b]" / "'name' does not depend on any axioms"
    for m in re.finditer(r"'([^']+)' depends on axioms: \[([^\]]*)\]", txt, flags=re.S):
        res["axioms"][m.group(1)] = [a.strip() for a in m.group(2).replace("\n", " ").split(",") if a.strip()]
    for m in re.finditer(r"'([^']+)' does not depend on any axioms", txt):
        res["axioms"][m.group(1)] = []
    for n in names:
        if n not in res["axioms"]:
            res.update(status="broken", why="no axiom report for " + n)
            return res
        extra = [a for a in res["axioms"][n] if a not in ALLOWED_AXIOMS]
        if extra:
            res.update(status="broken", why="theorem %s depends on non-allowed axioms %s" % (n, extra))
            return res
    return res


def leanchecker(module):
    with Lock(".lake.lock"):
        r = subprocess.run(["lake", "env", "leanchecker", module], cwd=LEAN, capture_output=True, text=True, timeout=3000)
    return r.returncode, (r.stdout + r.stderr)[-1000:]


# ------------------------------------------------------------------ running
def run_harness(exe, reqs, secs=10, workdir=None):
    """Run the C++ harness over the request lines; a crash / sanitizer abort / timeout is the
    answer for that line, and the harness is restarted on the next one."""
    os.makedirs(os.path.join(BUILD, "tmp"), exist_ok=True)
    cf = os.path.join(BUILD, "tmp", "cases_%d_%d.txt" % (os.getpid(), random.randrange(1 << 30)))
    with open(cf, "w") as f:
        for r in reqs:
            f.write(r + "\n")
    answers = []
    crashes = 0
    timeouts = 0
    start = 0
    try:
        while start < len(reqs):
            p = subprocess.run([exe, cf, str(start), str(secs)], capture_output=True, env=env_clean(), cwd=workdir)
            lines = p.stdout.decode("utf-8", "replace").split("\n")
            if lines and lines[-1] == "":
                lines.pop()
            if p.returncode == 0:
                answers.extend(lines)
                start = len(answers)
                if len(lines) < len(reqs) - (start - len(lines)):
                    pass
                break
            # abnormal: lines answered so far are good, except a partial last line
            full = lines
            if p.returncode == 3 and full and full[-1].endswith("timeout"):
                # (the library may have printed part of a line to stdout before the alarm fired)
                full[-1] = "timeout"
                answers.extend(full)
                start = len(answers)
                crashes += 1
                timeouts += 1
                if timeouts >= 5:
                    # a change that makes the code hang would cost secs per remaining case: the
                    # timeouts seen so far are the finding, the rest of this chunk is not run
                    while len(answers) < len(reqs):
                        answers.append("not-run-after-timeouts")
                    break
                continue
            err = p.stderr.decode("utf-8", "replace")
            answers.extend(full[: len(reqs) - start])
            # the request that crashed is number len(answers); describe the crash
            m = re.search(r"(runtime error: [^\n]*|ERROR: AddressSanitizer: [^\n]*|SUMMARY: [^\n]*)", err)
            what = m.group(1) if m else "rc=%d" % p.returncode
            frame = ""
            fm = re.search(r"#\d+ 0x[0-9a-f]+ in ([^\n]*?/repo/src/[^\n ]*)", err)
            if fm:
                frame = " at " + re.sub(r"0x[0-9a-f]+", "", fm.group(1))
            what = re.sub(r"0x[0-9a-f]+", "ADDR", what)
            what = re.sub(r"pc ADDR bp ADDR sp ADDR T\d+", "", what)
            if len(answers) < len(reqs):
                answers.append("crash " + what.strip() + frame)
                crashes += 1
            start = len(answers)
        while len(answers) < len(reqs):
            answers.append("no-answer")
    finally:
        try:
            os.unlink(cf)
        except OSError:
            pass
    return answers[: len(reqs)], crashes


def run_driver(exe, lines, timeout=3000):
    inp = "".join(l + "\n" for l in lines).encode()
    p = subprocess.run([exe], input=inp, capture_output=True, timeout=timeout)
    out = p.stdout.decode("utf-8", "replace").split("\n")
    if out and out[-1] == "":
        out.pop()
    if p.returncode != 0 or len(out) != len(lines):
        # find which line killed it (stack overflow etc.): report as driver failure on that line
        while len(out) < len(lines):
            out.append("driver-failed rc=%d %s" % (p.returncode, p.stderr.decode("utf-8", "replace")[-200:].replace("\n", " ")))
    return out


def run_driver_chunked(exe, lines, chunk=400, workers=14):
    chunks = [lines[i:i + chunk] for i in range(0, len(lines), chunk)]
    with ThreadPoolExecutor(max_workers=workers) as ex:
        res = list(ex.map(lambda c: run_driver(exe, c), chunks))
    return [x for c in res for x in c]


def run_harness_chunked(exe, reqs, secs=10, chunk=400, workers=14, workdir=None):
    chunks = [reqs[i:i + chunk] for i in range(0, len(reqs), chunk)]
    with ThreadPoolExecutor(max_workers=workers) as ex:
        res = list(ex.map(lambda c: run_harness(exe, c, secs, workdir), chunks))
    ans = [x for c, _ in res for x in c]
    return ans, sum(n for _, n in res)


# ------------------------------------------------------------------ known findings
def load_known():
    known, fixed = [], []
    if os.path.exists(KNOWN):
        for l in open(KNOWN):
            l = l.strip()
            if not l or l.startswith("#"):
                continue
            m = re.match(r"known:\s+property=(\S+)\s+key=(\S+)\s+(.*)", l)
            if m:
                known.append({"property": m.group(1), "key": m.group(2), "what": m.group(3)})
                continue
            m = re.match(r"fixed:\s+property=(\S+)\s+(\S+)\s+(.*)", l)
            if m:
                fixed.append({"property": m.group(1), "commit": m.group(2), "what": m.group(3)})
    return known, fixed


# ------------------------------------------------------------------ the verdict protocol
class Case:
    __slots__ = ("req", "tags", "family")

    def __init__(self, req, tags=(), family="random"):
        self.req = req
        self.tags = tuple(tags)
        self.family = family


def write_evidence(pid, data):
    os.makedirs(EVID, exist_ok=True)
    with open(os.path.join(EVID, pid + ".json"), "w") as f:
        json.dump(data, f, indent=1, sort_keys=True)
        f.write("\n")


def write_replay(pid, name, data):
    d = os.path.join(REPLAYS, pid)
    os.makedirs(d, exist_ok=True)
    p = os.path.join(d, name)
    with open(p, "w") as f:
        json.dump(data, f, indent=1, sort_keys=True)
        f.write("\n")
    return p


def run_check(spec, tier, seed, replay=None):
    """spec: a check module (see checks/*.py).  Implements DESIGN §5."""
    t0 = time.time()
    pid = spec.ID
    rng = random.Random(seed)
    HARNESS_ENV.clear()
    HARNESS_ENV.update(getattr(spec, "ENV", {}))
    violations = []       # (replay_path, suffix)
    known_lines = []
    notes = []

    # 1. tables + proof
    rc, tmsg = extract_tables()
    table_broken = None
    if rc != 0:
        table_broken = tmsg
        notes.append("table extraction failed: " + tmsg)
    proof = prove(spec.LEAN_MODULE, getattr(spec, "THEOREMS", None))
    if tier == "thorough" and proof["status"] == "proved":
        rc2, out2 = leanchecker(spec.LEAN_MODULE)
        if rc2 != 0:
            proof.update(status="broken", why="leanchecker rejected %s: %s" % (spec.LEAN_MODULE, out2[-300:]))
        else:
            notes.append("leanchecker accepted " + spec.LEAN_MODULE)
    log("proof: %s %s (%d theorems)" % (proof["status"], proof["why"], len(proof["theorems"])))

    # 2. correspondence + 3. judge
    drv, dout = build_driver()
    if drv is None:
        # the driver shares definitions with the proofs; a broken model is a broken obligation
        if proof["status"] == "proved":
            proof.update(status="broken", why="model driver does not build: " + dout[-400:])
    hexe = build_harness(getattr(spec, "HARNESS_VARIANT", "asan"))
    cases = list(spec.cases(rng, tier)) if replay is None else [Case(replay, ("replay",), "replay")]
    reqs = [c.req for c in cases]
    secs = getattr(spec, "CASE_SECONDS", 10)
    hwork = getattr(spec, "workdir", lambda: None)()
    if hasattr(spec, "run_impl"):
        # the implementation side is not (only) the in-process harness, e.g. the built executables (C19)
        impl, ncrash = spec.run_impl(hexe, reqs, secs)
    else:
        impl, ncrash = run_harness_chunked(hexe, reqs, secs, chunk=getattr(spec, "CHUNK", 200), workdir=hwork)
        # a case that ran out of time while 14 harness processes share a loaded machine is run
        # again, alone and with a generous limit, before it counts: only a real hang (or a change
        # that makes the code very slow) stays a timeout.  At most three are retried.
        slow = [i for i, a in enumerate(impl) if a == "timeout"][:3]
        for i in slow:
            a2, _ = run_harness(hexe, [reqs[i]], secs * 6, hwork)
            if a2 and a2[0] != "timeout":
                impl[i] = a2[0]
                ncrash -= 1
                notes.append("case %d ran out of time in the parallel run and completed when run alone" % i)
            else:
                break
    if drv is not None:
        model = run_driver_chunked(drv, ["M " + r for r in reqs], chunk=getattr(spec, "CHUNK", 200))
        judge = run_driver_chunked(drv, ["S %s ## %s" % (r, a) for r, a in zip(reqs, impl)], chunk=getattr(spec, "CHUNK", 200))
    else:
        model = ["driver-missing"] * len(reqs)
        judge = ["skip"] * len(reqs)
    norm = getattr(spec, "normalize", lambda x: x)
    # optional spec.agree(case, impl, model): a correspondence relation that is not plain equality
    # (C15: the model may answer "at least this stage is reached")
    if hasattr(spec, "agree"):
        same = lambda i: spec.agree(cases[i], impl[i], model[i])
    else:
        same = lambda i: norm(impl[i]) == norm(model[i])
    diffs = [i for i in range(len(reqs)) if not same(i) and impl[i] != "not-run-after-timeouts"]
    if getattr(spec, "NO_MODEL_STREAM", False):
        # the executable model of this component is not written yet: only the spec oracle judges
        diffs = []
        notes.append("no model stream for this property yet: correspondence not checked, spec oracle only")
    fails = [i for i in range(len(reqs)) if judge[i].startswith("fail") or impl[i].startswith("crash") or impl[i] == "timeout"
             or impl[i].startswith("uncaught:")]
    if hasattr(spec, "extra_fail"):
        fails = sorted(set(fails) | {i for i in range(len(reqs)) if spec.extra_fail(cases[i], impl[i], judge[i])})
    if hasattr(spec, "not_fail"):
        fails = [i for i in fails if not spec.not_fail(cases[i], impl[i], judge[i])]
    log("cases=%d diffs=%d judge-fails=%d crashes=%d" % (len(reqs), len(diffs), len(fails), ncrash))
    if hasattr(spec, "judge_notes"):
        # optional: a check summarises what its judge reported beyond ok/fail (e.g. hypothesis coverage of a partial theorem)
        for n in spec.judge_notes(cases, impl, judge):
            notes.append(n)
            log(n)
    if hasattr(spec, "model_notes") and drv is not None:
        # optional: a check summarises the model's answers (e.g. the share of cases a stage model covers)
        for n in spec.model_notes(cases, impl, model):
            notes.append(n)
            log(n)

    if replay is not None:
        print("request : " + replay)
        print("impl    : " + impl[0])
        print("model   : " + model[0])
        print("judge   : " + judge[0])

    # 4. verdict
    known, fixed = load_known()
    known_here = [k for k in known if k["property"] == pid]
    seen_known = {}
    unlisted = {}
    for i in fails:
        key = spec.finding_key(cases[i], impl[i], judge[i]) if hasattr(spec, "finding_key") else "case"
        k = next((k for k in known_here if k["key"] == key), None)
        if k:
            seen_known.setdefault(key, (k, i))
        else:
            unlisted.setdefault(key, []).append(i)
    for key, (k, i) in sorted(seen_known.items()):
        known_lines.append("KNOWN-FINDING: property=%s %s [key=%s; e.g. %s]" % (pid, k["what"], key, reqs[i][:160]))
    for key, idxs in sorted(unlisted.items()):
        i = min(idxs, key=lambda j: len(reqs[j]))
        req = reqs[i]
        if hasattr(spec, "shrink"):
            req, simpl = shrink_case(spec, hexe, drv, req, key, secs, hwork)
            smodel = run_driver(drv, ["M " + req])[0] if drv else model[i]
            sjudge = run_driver(drv, ["S %s ## %s" % (req, simpl)])[0] if drv else judge[i]
        else:
            simpl, smodel, sjudge = impl[i], model[i], judge[i]
        path = write_replay(pid, "fail_%s.json" % re.sub(r"[^A-Za-z0-9_.-]", "_", key)[:80], {
            "property": pid, "kind": "concrete", "seed": seed, "finding_key": key,
            "input": req, "impl_output": simpl, "model_output": smodel, "judge_output": sjudge,
            "occurrences": len(idxs),
            "how_to_replay": "./check %s --replay-file <this file>   (or: ./check %s --replay '<input>')" % (pid, pid)})
        violations.append((path, ""))
    broken = []
    if table_broken:
        broken.append("regenerated tables: " + table_broken)
    if proof["status"] != "proved":
        broken.append("proof: " + proof["why"])
    if diffs and HARNESS_DROPPED:
        broken.extend("harness: " + l for l in HARNESS_DROPPED)
    if diffs:
        broken.append("correspondence: %d of %d cases differ (stream %s), first: %s" % (
            len(diffs), len(reqs), getattr(spec, "STREAM", pid), reqs[min(diffs, key=lambda j: len(reqs[j]))][:200]))
    if broken and not violations and (replay is None or diffs):
        # (replay mode: only a model/implementation difference on the replayed input is reported,
        # in a file of its own so that the record of the last full run is kept)
        i = min(diffs, key=lambda j: len(reqs[j])) if diffs else None
        if replay is not None:
            print("differs : the model's answer is not the implementation's (the judge alone does not fail this input)")
        path = write_replay(pid, "unproved.json" if replay is None else "replay_differs.json", {
            "property": pid, "kind": "unproved", "seed": seed,
            "theorem_or_stream": broken,
            "first_differing_case": None if i is None else {"input": reqs[i], "impl_output": impl[i], "model_output": model[i], "judge_output": judge[i]},
            "proof_log": proof.get("log", ""),
            "note": "the property is no longer shown to hold: the obligation(s) above do not check; the failing-input search (spec oracle on the implementation's outputs over %d cases) found no concrete failing input" % len(reqs)})
        violations.append((path, " no-failing-input-found"))

    # 5. evidence
    nontrivial = {}
    fam = {}
    taghist = {}
    for c in cases:
        fam[c.family] = fam.get(c.family, 0) + 1
        for t in c.tags:
            taghist[t] = taghist.get(t, 0) + 1
        if c.tags:
            nontrivial[hashlib.sha1(c.req.encode()).hexdigest()] = 1
    outcome_hist = {}
    for a in impl:
        k = spec.outcome_class(a) if hasattr(spec, "outcome_class") else a.split(" ")[0][:24]
        outcome_hist[k] = outcome_hist.get(k, 0) + 1
    samples = []
    step = max(1, len(cases) // 4)
    for i in range(0, len(cases), step):
        samples.append({"request": reqs[i][:300], "impl": impl[i][:300], "model_agrees": same(i), "judge": judge[i][:120]})
    ev = {
        "property_id": pid, "tier": tier, "seed": seed, "level": spec.LEVEL,
        "coverage": {
            "obligations": len(proof["theorems"]), "discharged": len(proof["theorems"]) if proof["status"] == "proved" else 0,
            "checker_cmd": "cd lean && lake build %s && lake env lean <audit with #print axioms>%s" % (spec.LEAN_MODULE, " && lake env leanchecker " + spec.LEAN_MODULE if tier == "thorough" else ""),
            "trusted_base": ["Lean 4.33.0 kernel", "axioms: " + ", ".join(sorted({a for v in proof["axioms"].values() for a in v}) or ["none"]),
                             "hand-written model tied to /repo by regenerated tables + differential correspondence (this run: %d cases, %d differ)" % (len(reqs), len(diffs)),
                             "spec definitions in lean/Ctrmml/Spec", "g++/ASan/UBSan, harness/*.cpp, Lean compiler for the driver"] + list(getattr(spec, "TRUSTED", [])),
            "theorems": proof["theorems"], "axioms_per_theorem": proof["axioms"],
            "proof_status": proof["status"], "proof_note": proof["why"],
            "tables": tmsg,
            "evaluations": len(reqs), "distinct_nontrivial": len(nontrivial),
            "rule": getattr(spec, "RULE", ""),
            "correspondence_differences": len(diffs), "judge_failures": len(fails), "harness_crashes": ncrash,
            "families": fam, "input_distribution": taghist, "impl_outcomes": outcome_hist,
            "samples": samples, "explanation": getattr(spec, "EXPLANATION", ""),
            "known_findings_seen": sorted(seen_known.keys()),
            "notes": notes,
        },
        "assumptions": list(getattr(spec, "ASSUMPTIONS", [])),
        "wall_s": round(time.time() - t0, 2),
        "violations": len(violations),
    }
    if replay is None:
        write_evidence(pid, ev)
    for l in known_lines:
        print(l)
    for path, suffix in violations:
        print("VIOLATION property=%s replay=%s%s" % (pid, path, suffix))
    log("%s %s: %s in %.1fs" % (pid, tier, "VIOLATION" if violations else "held", time.time() - t0))
    return 1 if violations else 0


def shrink_case(spec, hexe, drv, req, key, secs, hwork):
    """Greedy structural shrinking: keep a candidate if it still fails with the same key."""
    def fails(r):
        impl, _ = spec.run_impl(hexe, [r], secs) if hasattr(spec, "run_impl") else run_harness(hexe, [r], secs, hwork)
        j = run_driver(drv, ["S %s ## %s" % (r, impl[0])])[0] if drv else "skip"
        bad = j.startswith("fail") or impl[0].startswith("crash") or impl[0] == "timeout" or impl[0].startswith("uncaught:")
        if hasattr(spec, "extra_fail") and spec.extra_fail(Case(r), impl[0], j):
            bad = True
        if hasattr(spec, "not_fail") and spec.not_fail(Case(r), impl[0], j):
            bad = False
        if not bad:
            return None
        k = spec.finding_key(Case(r), impl[0], j) if hasattr(spec, "finding_key") else "case"
        return impl[0] if k == key else None
    cur = req
    cur_impl = fails(cur) or ""
    steps = 0
    improved = True
    while improved and steps < 200:
        improved = False
        for cand in spec.shrink(cur):
            steps += 1
            if steps >= 200:
                break
            if len(cand) >= len(cur):
                continue
            r = fails(cand)
            if r is not None:
                cur, cur_impl, improved = cand, r, True
                break
    return cur, cur_impl
